(* C05: flag facts, ownership of created objects, and refinement of the exported tree by the direct
   system call for the single-call operations.  The full statement (every operation, every
   configuration) is kept as [C05_full]; it is REFUTED by the inode_file_handles defect (mkdir/symlink for
   a non-root caller), and proved for the listed operations outside that class ([C05_tree_partial]). *)
From Coq Require Import List NArith Bool Lia.
From FB Require Import Gen.Validators Model.Names Model.HostFs Model.Passthrough Proofs.HostFs Proofs.PassthroughCreds.
Import ListNotations.
Local Open Scope N_scope.

(* ---- flags *)
Lemma land_ldiff_same : forall a b, N.land (N.ldiff a b) b = 0.
Proof.
  intros a b. apply N.bits_inj. intros n. rewrite N.land_spec, N.ldiff_spec, N.bits_0.
  destruct (N.testbit a n), (N.testbit b n); reflexivity.
Qed.
Lemma has_clear : forall a b, has (clear a b) b = false.
Proof. intros a b. unfold has, clear. rewrite land_ldiff_same. reflexivity. Qed.

Theorem writeback_flags_off : forall cf f, c_writeback cf = false -> get_writeback_open_flags cf f = f.
Proof. intros cf f H. unfold get_writeback_open_flags. rewrite H. reflexivity. Qed.

Theorem writeback_flags_no_append : forall cf f, c_writeback cf = true -> has (get_writeback_open_flags cf f) O_APPEND = false.
Proof.
  intros cf f H. unfold get_writeback_open_flags. rewrite H. cbn [andb].
  destruct (has f O_APPEND) eqn:Ha; [apply has_clear|].
  destruct (N.land f O_ACCMODE =? O_WRONLY); [|exact Ha].
  (* O_RDWR = 2 and clearing bits 0-1 do not touch bit 10 *)
  unfold has in *. apply negb_false_iff in Ha. apply N.eqb_eq in Ha. apply negb_false_iff. apply N.eqb_eq.
  apply N.bits_inj. intros n. rewrite N.land_spec, N.lor_spec, N.bits_0.
  assert (Hb : N.testbit (N.land f O_APPEND) n = false) by (rewrite Ha; apply N.bits_0).
  rewrite N.land_spec in Hb. unfold clear. rewrite N.ldiff_spec.
  destruct (N.testbit O_APPEND n) eqn:Hn; [|rewrite !andb_false_r; reflexivity].
  rewrite andb_true_r in Hb. rewrite Hb. cbn.
  (* n is bit 10: O_RDWR has no such bit *)
  assert (n = 10). { unfold O_APPEND in Hn. destruct (N.eq_dec n 10) as [->|Hne]; [reflexivity|].
    exfalso. change 1024 with (2 ^ 10) in Hn. rewrite N.pow2_bits_eqb in Hn. apply N.eqb_eq in Hn. congruence. }
  subst. reflexivity.
Qed.

Theorem writeback_flags_access : forall cf f, c_writeback cf = true ->
  (N.land f O_ACCMODE =? O_WRONLY) = true ->
  get_writeback_open_flags cf f = (if has f O_APPEND then clear (N.lor (clear f O_ACCMODE) O_RDWR) O_APPEND else N.lor (clear f O_ACCMODE) O_RDWR).
Proof. intros cf f H Hw. unfold get_writeback_open_flags. rewrite H, Hw. reflexivity. Qed.

Theorem check_fd_flags_sets : forall s hid hd flags hd' s', check_fd_flags s hid hd flags = (hd', s') ->
  hd_flags hd' = flags /\ hd_host hd' = hd_host hd /\ hd_acc hd' = hd_acc hd /\
  (hd_flags hd <> flags -> hd_append hd' = has flags O_APPEND) /\ p_host s' = p_host s.
Proof.
  intros s hid hd flags hd' s' H. unfold check_fd_flags in H.
  destruct (hd_flags hd =? flags) eqn:E.
  - apply N.eqb_eq in E. inversion H; subst. repeat split; try reflexivity. intros C. contradiction.
  - destruct hid; inversion H; subst; cbn; repeat split; reflexivity.
Qed.

(* special files and links are never opened for I/O *)
Theorem special_never_opened : forall cf s inode flags d, assoc inode (p_inodes s) = Some d ->
  is_safe_inode (id_mode d) = false -> open_inode cf s inode flags = (Err EBADF, s).
Proof. intros cf s inode flags d Ha Hs. unfold open_inode. rewrite Ha, Hs. reflexivity. Qed.

(* ---- what runs inside a set_creds scope started as root *)
Definition caller_creds (uid gid : N) : creds := mkCreds uid gid (uid =? 0).

Lemma with_creds_from_root : forall A uid gid s (body : pstate -> res A * pstate),
  p_creds s = root_creds ->
  exists c r0 s1, body (with_creds_of s (caller_creds uid gid)) = (r0, s1) /\
                  with_creds uid gid s body = (r0, with_creds_of s1 c).
Proof.
  intros A uid gid s body Hc.
  destruct (body (with_creds_of s (caller_creds uid gid))) as [r0 s1] eqn:Hb.
  unfold with_creds. rewrite Hc. unfold sys_setresgid, sys_setresuid. cbn [euid egid fsetid root_creds].
  unfold caller_creds in Hb.
  destruct (gid =? 0) eqn:Hg; destruct (uid =? 0) eqn:Hu; cbn [N.eqb orb euid egid fsetid];
    try (apply N.eqb_eq in Hg; subst gid); try (apply N.eqb_eq in Hu; subst uid); cbn [N.eqb] in *;
    unfold root_creds; cbn [euid egid fsetid N.eqb orb]; rewrite ?Hu in *; rewrite Hb; eexists; exists r0, s1; split; reflexivity.
Qed.

(* ---- ownership: a node created by the creating calls belongs to the calling credentials *)
Theorem create_node_owner : forall c h d dv n k mode i h', i <> d ->
  create_node c h d dv n k mode = (i, h') ->
  exists v, get h' i = Some v /\ i_uid v = euid c /\ i_gid v = new_gid c dv /\ i_kind v = k.
Proof.
  intros c h d dv n k mode i h' Hne H. unfold create_node in H. rewrite alloc_spec in H. inversion H; subst. clear H.
  eexists. split.
  - rewrite get_set_other by exact Hne. unfold get. cbn. apply assoc_set_same.
  - cbn. repeat split; reflexivity.
Qed.

Theorem owner_of_caller : forall uid gid dv, uid <> 0 ->
  euid (caller_creds uid gid) = uid /\
  new_gid (caller_creds uid gid) dv = (if has (i_mode dv) S_ISGID then i_gid dv else gid).
Proof. intros. split; reflexivity. Qed.

(* ---- refinement of the exported tree for the single-call operations *)
Definition Known (cf : cfg) (q : req) : Prop :=
  c_ifh cf = true /\ match q with
                     | QMkdir _ _ _ _ uid _ | QSymlink _ _ _ uid _ => uid <> 0
                     | _ => False
                     end.

(* the same host call made directly, with the caller's identity where the code installs it *)
Definition direct_host (cf : cfg) (s : pstate) (q : req) : option host :=
  let I f := option_map id_host (assoc f (p_inodes s)) in
  match q with
  | QMkdir p n mode umask uid gid =>
      match validate cf n, I p with
      | None, Some d => Some (snd (sys_mkdirat (caller_creds uid gid) (p_host s) d n (N.ldiff mode umask)))
      | _, _ => Some (p_host s) end
  | QMknod p n mode rdev umask uid gid =>
      match validate cf n, I p with
      | None, Some d => Some (snd (sys_mknodat (caller_creds uid gid) (p_host s) d n (N.ldiff mode umask) rdev))
      | _, _ => Some (p_host s) end
  | QSymlink p n t uid gid =>
      match validate cf n, I p with
      | None, Some d => Some (snd (sys_symlinkat (caller_creds uid gid) (p_host s) t d n))
      | _, _ => Some (p_host s) end
  | QUnlink p n =>
      match validate cf n, I p with
      | None, Some d => Some (snd (sys_unlinkat root_creds (p_host s) d n 0))
      | _, _ => Some (p_host s) end
  | QRmdir p n =>
      match validate cf n, I p with
      | None, Some d => Some (snd (sys_unlinkat root_creds (p_host s) d n AT_REMOVEDIR))
      | _, _ => Some (p_host s) end
  | QRename od on nd nn flags =>
      match validate cf on, validate cf nn, I od, I nd with
      | None, None, Some a, Some b => Some (snd (sys_renameat2 root_creds (p_host s) a on b nn flags))
      | _, _, _, _ => Some (p_host s) end
  | QLink i p n =>
      match validate cf n, I i, I p with
      | None, Some a, Some b => Some (snd (sys_linkat root_creds (p_host s) a b n))
      | _, _, _ => Some (p_host s) end
  | QSetxattr i n v flags =>
      if negb (c_xattr cf) then Some (p_host s) else
      match I i with Some a => Some (snd (sys_setxattr root_creds (p_host s) a n v flags)) | None => Some (p_host s) end
  | QRemovexattr i n =>
      if negb (c_xattr cf) then Some (p_host s) else
      match I i with Some a => Some (snd (sys_removexattr root_creds (p_host s) a n)) | None => Some (p_host s) end
  | _ => None          (* not covered by this theorem: create, open(O_TRUNC), write, setattr, fallocate *)
  end.

Lemma do_lookup_host : forall s p n r s', do_lookup s p n = (r, s') -> p_host s' = p_host s.
Proof.
  intros s p n r s' H. unfold do_lookup in H.
  destruct (assoc p (p_inodes s)); [|inversion H; subst; reflexivity].
  destruct (lookup1 _ _ _ _); [|inversion H; subst; reflexivity].
  destruct (stat _ _); [|inversion H; subst; reflexivity].
  destruct (find_by_host _ _) as [[f d]|]; [inversion H; subst; reflexivity|].
  destruct (assoc _ (p_idmap s)); inversion H; subst; reflexivity.
Qed.
Lemma entry_reply_host : forall s p n rp io s', entry_reply (do_lookup s p n) = (rp, io, s') -> p_host s' = p_host s.
Proof.
  intros s p n rp io s' H. destruct (do_lookup s p n) as [[[f a]|e] s1] eqn:Hl; cbn in H; inversion H; subst;
    apply (do_lookup_host _ _ _ _ _ Hl).
Qed.

Lemma create_then_lookup_host : forall cf fi s uid gid parent n call rp io s' d,
  p_creds s = root_creds -> assoc parent (p_inodes s) = Some d ->
  (c_ifh cf && fi && negb (uid =? 0)) = false ->
  create_then_lookup cf fi s uid gid parent n call = (rp, io, s') ->
  p_host s' = snd (call (caller_creds uid gid) (p_host s) (id_host d)).
Proof.
  intros cf fi s uid gid parent n call rp io s' d Hc Ha Hk H. unfold create_then_lookup in H. rewrite Ha in H.
  match type of H with context [with_creds uid gid s ?b] => destruct (with_creds_from_root _ uid gid s b Hc) as [c [r [s1 [Hb Hw]]]] end.
  rewrite Hw in H. clear Hw. cbn [p_creds with_creds_of caller_creds euid p_host] in Hb. rewrite Hk in Hb.
  destruct (call (caller_creds uid gid) (p_host s) (id_host d)) as [r1 h'] eqn:Hcall.
  inversion Hb; subst r1 s1. cbn [snd].
  destruct r.
  - rewrite (entry_reply_host _ _ _ _ _ _ H). reflexivity.
  - inversion H; subst. reflexivity.
Qed.

Definition C05_tree_statement (cf : cfg) (s : pstate) (q : req) : Prop :=
  forall h, direct_host cf s q = Some h ->
  forall rp io ho s', pstep cf s q = (rp, io, ho, s') -> p_host s' = h.

(* the full statement: every covered operation, every configuration *)
Definition C05_full : Prop := forall cf s q, p_creds s = root_creds -> C05_tree_statement cf s q.

Theorem tree_partial : forall cf s q, p_creds s = root_creds -> ~ Known cf q -> C05_tree_statement cf s q.
Proof.
  intros cf s q Hc Hk h Hd rp io ho s' H. unfold pstep in H. unfold direct_host in Hd.
  destruct q; try discriminate Hd; cbv beta zeta in H, Hd.
  - (* mkdir *)
    destruct (validate cf n); [inversion H; inversion Hd; subst; reflexivity|].
    destruct (assoc parent (p_inodes s)) as [d|] eqn:Ha; cbn [option_map] in Hd.
    + match type of H with context [create_then_lookup ?a0 ?b0 ?a ?b ?c ?d0 ?e ?f] => destruct (create_then_lookup a0 b0 a b c d0 e f) as [[rp0 io0] s0] eqn:Hx end.
      inversion H; subst. inversion Hd; subst.
      apply (create_then_lookup_host _ _ _ _ _ _ _ _ _ _ _ _ Hc Ha) in Hx; [exact Hx|].
      destruct (c_ifh cf) eqn:Hi; [|reflexivity]. cbn. apply negb_false_iff. apply N.eqb_eq.
      destruct (N.eq_dec uid 0) as [->|Hne]; [reflexivity|]. exfalso. apply Hk. split; [exact Hi | exact Hne].
    + unfold create_then_lookup in H. rewrite Ha in H. inversion H; inversion Hd; subst; reflexivity.
  - (* mknod *)
    destruct (validate cf n); [inversion H; inversion Hd; subst; reflexivity|].
    destruct (assoc parent (p_inodes s)) as [d|] eqn:Ha; cbn [option_map] in Hd.
    + match type of H with context [create_then_lookup ?a0 ?b0 ?a ?b ?c ?d0 ?e ?f] => destruct (create_then_lookup a0 b0 a b c d0 e f) as [[rp0 io0] s0] eqn:Hx end.
      inversion H; subst. inversion Hd; subst.
      apply (create_then_lookup_host _ _ _ _ _ _ _ _ _ _ _ _ Hc Ha) in Hx; [exact Hx|]. rewrite andb_false_r. reflexivity.
    + unfold create_then_lookup in H. rewrite Ha in H. inversion H; inversion Hd; subst; reflexivity.
  - (* symlink *)
    destruct (validate cf n); [inversion H; inversion Hd; subst; reflexivity|].
    destruct (assoc parent (p_inodes s)) as [d|] eqn:Ha; cbn [option_map] in Hd.
    + match type of H with context [create_then_lookup ?a0 ?b0 ?a ?b ?c ?d0 ?e ?f] => destruct (create_then_lookup a0 b0 a b c d0 e f) as [[rp0 io0] s0] eqn:Hx end.
      inversion H; subst. inversion Hd; subst.
      apply (create_then_lookup_host _ _ _ _ _ _ _ _ _ _ _ _ Hc Ha) in Hx; [exact Hx|].
      destruct (c_ifh cf) eqn:Hi; [|reflexivity]. cbn. apply negb_false_iff. apply N.eqb_eq.
      destruct (N.eq_dec uid 0) as [->|Hne]; [reflexivity|]. exfalso. apply Hk. split; [exact Hi | exact Hne].
    + unfold create_then_lookup in H. rewrite Ha in H. inversion H; inversion Hd; subst; reflexivity.
  - (* link *)
    destruct (validate cf n); [inversion H; inversion Hd; subst; reflexivity|].
    destruct (assoc inode (p_inodes s)) as [d|]; cbn [option_map] in Hd; [|inversion H; inversion Hd; subst; reflexivity].
    destruct (assoc newparent (p_inodes s)) as [nd|]; cbn [option_map] in Hd; [|inversion H; inversion Hd; subst; reflexivity].
    rewrite Hc in H. destruct (sys_linkat root_creds (p_host s) (id_host d) (id_host nd) n) as [[u|e] h'] eqn:Hl; inversion Hd; subst; cbn [snd].
    + match type of H with context [entry_reply ?x] => destruct (entry_reply x) as [[rp0 io0] s0] eqn:He end. inversion H; subst.
      rewrite (entry_reply_host _ _ _ _ _ _ He). reflexivity.
    + inversion H; subst. reflexivity.
  - (* unlink *)
    destruct (validate cf n); [inversion H; inversion Hd; subst; reflexivity|].
    destruct (assoc parent (p_inodes s)) as [d|]; cbn [option_map] in Hd; [|inversion H; inversion Hd; subst; reflexivity].
    rewrite Hc in H. destruct (sys_unlinkat root_creds (p_host s) (id_host d) n 0) as [[u|e] h']; inversion Hd; inversion H; subst; reflexivity.
  - (* rmdir *)
    destruct (validate cf n); [inversion H; inversion Hd; subst; reflexivity|].
    destruct (assoc parent (p_inodes s)) as [d|]; cbn [option_map] in Hd; [|inversion H; inversion Hd; subst; reflexivity].
    rewrite Hc in H. destruct (sys_unlinkat root_creds (p_host s) (id_host d) n AT_REMOVEDIR) as [[u|e] h']; inversion Hd; inversion H; subst; reflexivity.
  - (* rename *)
    destruct (validate cf on); [inversion H; inversion Hd; subst; reflexivity|].
    destruct (validate cf nn); [inversion H; inversion Hd; subst; reflexivity|].
    destruct (assoc olddir (p_inodes s)) as [od|]; cbn [option_map] in Hd; [|inversion H; inversion Hd; subst; reflexivity].
    destruct (assoc newdir (p_inodes s)) as [nd|]; cbn [option_map] in Hd; [|inversion H; inversion Hd; subst; reflexivity].
    rewrite Hc in H. destruct (sys_renameat2 root_creds (p_host s) (id_host od) on (id_host nd) nn flags) as [[u|e] h']; inversion Hd; inversion H; subst; reflexivity.
  - (* setxattr *)
    destruct (negb (c_xattr cf)); [inversion H; inversion Hd; subst; reflexivity|].
    destruct (assoc inode (p_inodes s)) as [d|]; cbn [option_map] in Hd; [|inversion H; inversion Hd; subst; reflexivity].
    rewrite Hc in H. destruct (sys_setxattr root_creds (p_host s) (id_host d) n v flags) as [[u|e] h']; inversion Hd; inversion H; subst; reflexivity.
  - (* removexattr *)
    destruct (negb (c_xattr cf)); [inversion H; inversion Hd; subst; reflexivity|].
    destruct (assoc inode (p_inodes s)) as [d|]; cbn [option_map] in Hd; [|inversion H; inversion Hd; subst; reflexivity].
    rewrite Hc in H. destruct (sys_removexattr root_creds (p_host s) (id_host d) n) as [[u|e] h']; inversion Hd; inversion H; subst; reflexivity.
Qed.

(* the witness: inode_file_handles, mkdir for uid 1000 in a world-writable root *)
Definition wit_host : host := mkHost [(10, mkInode (KDir [] 10 false) 511 0 0 [])] 11.
Definition wit_cfg : cfg := mkCfg true false false false false true 2 true.
Definition wit_req : req := QMkdir ROOT_ID [110] 493 0 1000 1000.

Theorem full_refuted : ~ C05_full.
Proof.
  intros F. specialize (F wit_cfg (init_state wit_host 10) wit_req eq_refl).
  unfold C05_tree_statement in F.
  specialize (F _ eq_refl _ _ _ _ eq_refl). vm_compute in F. discriminate F.
Qed.

(* the witness is inside the Known class, and outside it the direct call would have created the directory *)
Lemma wit_known : Known wit_cfg wit_req.
Proof. split; [reflexivity | discriminate]. Qed.
