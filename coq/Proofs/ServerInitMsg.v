(* C12: the whole reply message the model produces for a successful INIT satisfies the specification
   predicate [init_reply_ok] of Spec/Init.v (the predicate the check evaluates on real replies). *)
From Coq Require Import List String NArith Bool Lia Arith.
From FB Require Import Lib.Bytes Lib.Layout Spec.KernelABI Model.Server Model.ServerCmp
  Spec.Requests Spec.Replies Spec.Init Proofs.ServerPerform Proofs.ServerReply
  Proofs.ServerInitBits Proofs.ServerInit Proofs.ServerInitNeg.
Import ListNotations.
Local Open Scope N_scope.

Definition init_qu (u major minor ra flags : N) (f2 : option N) : wfreq :=
  {| q_op := 26; q_unique := u; q_nodeid := 0; q_uid := 0; q_gid := 0; q_pid := 0;
     q_fields := [("major"%string, major); ("minor"%string, minor);
                  ("max_readahead"%string, ra); ("flags"%string, flags)];
     q_name1 := []; q_name2 := []; q_payload := []; q_pairs := []; q_flags2 := f2 |}.

Lemma client_capable_unique u major minor ra flags f2 :
  client_capable (init_qu u major minor ra flags f2) = client_capable (init_q major minor ra flags f2).
Proof. reflexivity. Qed.

(* the message ctx.reply_ok builds: header (length, error 0, unique) followed by the body *)
Definition ok_message (u : N) (body : bytes) : bytes := out_header (OUT_HDR + blen body) 0 u ++ body.

Theorem init_message_ok cfg u minor ra flags f2 want :
  u < 2 ^ 64 ->
  init_fits 7 minor ra flags f2 = true ->
  known_has_marker (cfg_fsopt_mask cfg) = true ->
  let q := init_qu u 7 minor ra flags f2 in
  let offered := N.land (client_capable q) (cfg_fsopt_mask cfg) in
  let body := init_reply_body minor ra (init_enabled offered want) in
  init_reply_ok q (cfg_fsopt_mask cfg) (FInit want) (MAX_BUFFER_SIZE + BUFFER_HEADER_SIZE) (ok_message u body) = true.
Proof.
  intros Hu Hfits Hknown q offered body.
  assert (Eb : body = init_reply_body minor ra (init_enabled
                 (N.land (client_capable (init_q 7 minor ra flags f2)) (cfg_fsopt_mask cfg)) want)) by reflexivity.
  clearbody body. clear offered.
  pose proof (init_success_major cfg minor ra flags f2 want) as Pmaj. rewrite <- Eb in Pmaj.
  assert (Hlen : blen body = init_body_len minor).
  { rewrite Eb. exact (init_success_len cfg minor ra flags f2 want). }
  assert (Hsmall : blen body <= 64).
  { rewrite Hlen. unfold init_body_len. destruct (minor <? 5); [vm_compute; discriminate|].
    destruct (minor <? 23); vm_compute; discriminate. }
  unfold init_reply_ok.
  change (fld q "major") with 7. change (fld q "minor") with minor. change (fld q "max_readahead") with ra.
  change (q_unique q) with u.
  change (7 <? 7) with false. cbv iota zeta.
  assert (Hbody : Spec.Replies.body (ok_message u body) = body).
  { unfold Spec.Replies.body, ok_message. apply drop_app_exact. apply out_header_length. }
  rewrite Hbody.
  assert (H1 : hdr_len (ok_message u body) = blen (ok_message u body)).
  { unfold hdr_len, ok_message. rewrite hdr_len_field, blen_app, out_header_len.
    apply N.mod_small. unfold OUT_HDR. lia. }
  assert (H2 : hdr_unique (ok_message u body) = u).
  { unfold hdr_unique, ok_message. rewrite hdr_unique_field. apply N.mod_small. exact Hu. }
  assert (H3 : hdr_err (ok_message u body) = 0).
  { unfold hdr_err, ok_message. rewrite hdr_err_field. reflexivity. }
  rewrite H1, H2, H3, !N.eqb_refl. cbn [andb].
  rewrite Hlen, N.eqb_refl. cbn [andb].
  rewrite Pmaj. cbn [N.eqb Pos.eqb andb].
  destruct (N.ltb_spec minor 5) as [Hlt|H5]; [reflexivity|].
  change (client_capable q) with (client_capable (init_q 7 minor ra flags f2)).
  pose proof (init_success_enabled cfg minor ra flags f2 want Hfits Hknown H5) as Pen.
  pose proof (init_success_readahead cfg minor ra flags f2 want Hfits H5) as Pra.
  destruct (init_success_max_write cfg minor ra flags f2 want H5) as [_ [M1 M2]].
  cbv zeta in Pen. rewrite <- Eb in Pen, Pra, M1, M2.
  apply N.leb_le in M1, M2.
  rewrite Pen, Pra, !N.eqb_refl, M1, M2. reflexivity.
Qed.
