(* C01: properties of [perform] -- the interaction of one reply action with the writer --
   for every action, capacity, unique and both transports. *)
From Coq Require Import List String NArith Bool Lia Arith.
From FB Require Import Lib.Bytes Model.Server.
Import ListNotations.
Local Open Scope N_scope.

Lemma blen_app a b : blen (a ++ b) = blen a + blen b.
Proof. unfold blen. rewrite app_length. lia. Qed.

Lemma blen_enc w n : blen (enc w n) = N.of_nat w.
Proof. unfold blen. rewrite enc_length. reflexivity. Qed.

Lemma out_header_len l e u : blen (out_header l e u) = 16.
Proof. unfold out_header. rewrite !blen_app, !blen_enc. reflexivity. Qed.

Lemma out_header_length l e u : List.length (out_header l e u) = 16%nat.
Proof. unfold out_header. rewrite !app_length, !enc_length. reflexivity. Qed.

(* ---------------------------------------------------------------- no panic *)
Lemma w_write_fresh_no_panic k cap d : w_write (fresh k cap) d <> WPanic.
Proof. unfold w_write, fresh; cbn. destruct k; cbn; repeat (destruct (_ <? _)); try destruct d; discriminate. Qed.

Lemma w_write_buffered_no_panic w d : w_buffered w = true -> w_write w d <> WPanic.
Proof.
  intro H. unfold w_write. rewrite H. destruct (w_kind w); cbn;
  repeat (destruct (_ <? _)); discriminate.
Qed.

Lemma w_split_buffered w off w1 w2 :
  w_split w off = Some (w1, w2) -> w_buffered w1 = true /\ w_buffered w2 = true.
Proof. unfold w_split. destruct (_ <? _); [discriminate|]. intro H; inversion H; subst; auto. Qed.

Lemma perform_err_no_panic w u e after :
  (w_buffered w = true \/ w_buf w = []) -> o_panic (perform_err w u e after) = false.
Proof.
  intro H. unfold perform_err.
  destruct (w_write w (out_header OUT_HDR (neg32 e) u)) as [[w' p]| |] eqn:E; try reflexivity.
  exfalso. destruct H as [H|H].
  - exact (w_write_buffered_no_panic _ _ H E).
  - unfold w_write in E. rewrite H in E. destruct (w_kind w); cbn in E;
    repeat (destruct (_ <? _)); try destruct (w_buffered w); discriminate.
Qed.

Theorem perform_no_panic k cap u a : o_panic (perform k cap u a) = false.
Proof.
  destruct a as [r|body|e after|data|e|body]; unfold perform.
  - reflexivity.
  - destruct (w_write (fresh k cap) _) as [[w' p]| |] eqn:E; try reflexivity.
    exfalso; exact (w_write_fresh_no_panic _ _ _ E).
  - apply perform_err_no_panic. right. reflexivity.
  - destruct (w_split (fresh k cap) OUT_HDR) as [[w1 w2]|] eqn:S; [|reflexivity].
    destruct (w_split_buffered _ _ _ _ S) as [B1 B2].
    destruct (w_write w2 data) as [[w2' p2]| |] eqn:E2; try reflexivity.
    + destruct (w_write w1 _) as [[w1' p1]| |] eqn:E1; try reflexivity.
      exfalso; exact (w_write_buffered_no_panic _ _ B1 E1).
    + exfalso; exact (w_write_buffered_no_panic _ _ B2 E2).
  - destruct (w_split (fresh k cap) OUT_HDR) as [[w1 w2]|] eqn:S; [|reflexivity].
    destruct (w_split_buffered _ _ _ _ S) as [B1 B2].
    apply perform_err_no_panic. left. exact B1.
  - destruct (w_write (fresh k cap) _) as [[w' p]| |] eqn:E; try reflexivity.
    exfalso; exact (w_write_fresh_no_panic _ _ _ E).
Qed.

(* ---------------------------------------------------------------- at most one write call *)
Lemma w_write_packets w d w' p : w_write w d = WOk (w', p) ->
  (w_buffered w = true -> p = []) /\ (List.length p <= 1)%nat /\
  w_buffered w' = w_buffered w /\ w_kind w' = w_kind w /\ w_buf w' = w_buf w ++ d /\
  (w_kind w = FuseDev -> w_buffered w = false -> p = [match d with [] => [] | _ => d end]) /\
  (w_kind w = Virtio -> p = []) /\ (blen (w_buf w) <= w_cap w -> blen (w_buf w ++ d) <= w_cap w).
Proof.
  unfold w_write. destruct (w_kind w) eqn:K.
  - destruct (negb (w_buffered w) && negb (Nat.eqb (List.length (w_buf w)) 0)); [discriminate|].
    destruct (N.ltb_spec (w_cap w - blen (w_buf w)) (blen d)) as [Hlt|Hge]; [discriminate|].
    assert (Hb : blen (w_buf w) <= w_cap w -> blen (w_buf w ++ d) <= w_cap w) by (rewrite blen_app; lia).
    destruct (w_buffered w) eqn:B.
    + intro H; inversion H; subst; cbn. repeat split; auto; try discriminate.
    + destruct d; intro H; inversion H; subst; cbn; repeat split; auto; try discriminate.
  - destruct (N.ltb_spec (w_cap w - blen (w_buf w)) (blen d)) as [Hlt|Hge]; [discriminate|].
    assert (Hb : blen (w_buf w) <= w_cap w -> blen (w_buf w ++ d) <= w_cap w) by (rewrite blen_app; lia).
    intro H; inversion H; subst; cbn. repeat split; auto; try discriminate.
Qed.

Lemma w_commit_len w o : (List.length (w_commit w o) <= 1)%nat.
Proof.
  unfold w_commit. destruct (w_kind w); cbn; [|lia].
  destruct (negb (w_buffered w)); cbn; [lia|].
  destruct (w_buf w ++ _); cbn; lia.
Qed.

Lemma perform_err_packets w u e after :
  (w_buffered w = true \/ w_buf w = []) ->
  (List.length (o_packets (perform_err w u e after)) <= 1)%nat.
Proof.
  intro H. unfold perform_err.
  destruct (w_write w _) as [[w' p]| |] eqn:E; cbn; try lia.
  destruct (w_write_packets _ _ _ _ E) as [P1 [P2 [P3 [P4 [P5 [P6 [P7 _]]]]]]].
  rewrite app_length.
  destruct (w_buffered w) eqn:B.
  - rewrite (P1 eq_refl). cbn. apply w_commit_len.
  - (* unbuffered: commit does nothing *)
    assert (w_commit w' None = []) as ->.
    { unfold w_commit. rewrite P3. destruct (w_kind w'); reflexivity. }
    cbn. lia.
Qed.

Theorem perform_at_most_one_packet k cap u a :
  (List.length (o_packets (perform k cap u a)) <= 1)%nat.
Proof.
  destruct a as [r|body|e after|data|e|body]; unfold perform.
  - cbn. lia.
  - destruct (w_write (fresh k cap) _) as [[w' p]| |] eqn:E; cbn; try lia.
    apply (w_write_packets _ _ _ _ E).
  - apply perform_err_packets. right; reflexivity.
  - destruct (w_split (fresh k cap) OUT_HDR) as [[w1 w2]|] eqn:S; [|cbn; lia].
    destruct (w_split_buffered _ _ _ _ S) as [B1 B2].
    destruct (w_write w2 data) as [[w2' p2]| |] eqn:E2; cbn; try lia.
    destruct (w_write_packets _ _ _ _ E2) as [Q1 _]. rewrite (Q1 B2).
    destruct (w_write w1 _) as [[w1' p1]| |] eqn:E1; cbn; try lia.
    destruct (w_write_packets _ _ _ _ E1) as [R1 _]. rewrite (R1 B1). cbn.
    apply w_commit_len.
  - destruct (w_split (fresh k cap) OUT_HDR) as [[w1 w2]|] eqn:S; [|cbn; lia].
    destruct (w_split_buffered _ _ _ _ S) as [B1 B2].
    apply perform_err_packets. left; exact B1.
  - destruct (w_write (fresh k cap) _) as [[w' p]| |] eqn:E; cbn; try lia.
    apply (w_write_packets _ _ _ _ E).
Qed.

(* virtio never touches the fd *)
Theorem perform_virtio_no_packets cap u a : o_packets (perform Virtio cap u a) = [].
Proof.
  assert (HV : forall w d w' p, w_kind w = Virtio -> w_write w d = WOk (w', p) -> p = [] /\ w_kind w' = Virtio).
  { intros w d w' p K E. destruct (w_write_packets _ _ _ _ E) as [_ [_ [_ [K' [_ [_ [V _]]]]]]].
    split; [apply V; exact K | rewrite K'; exact K]. }
  assert (HE : forall w e after, w_kind w = Virtio -> o_packets (perform_err w u e after) = []).
  { intros w e after K. unfold perform_err.
    destruct (w_write w _) as [[w' p]| |] eqn:E; try reflexivity.
    destruct (HV _ _ _ _ K E) as [-> K']. cbn. unfold w_commit. rewrite K'. reflexivity. }
  assert (HS : forall w off w1 w2, w_split w off = Some (w1, w2) -> w_kind w1 = w_kind w /\ w_kind w2 = w_kind w).
  { intros w off w1 w2. unfold w_split. destruct (_ <? _); [discriminate|]. intro H; inversion H; subst; auto. }
  destruct a as [r|body|e after|data|e|body]; unfold perform.
  - reflexivity.
  - destruct (w_write (fresh Virtio cap) _) as [[w' p]| |] eqn:E; try reflexivity.
    destruct (HV (fresh Virtio cap) _ _ _ eq_refl E) as [-> _]. reflexivity.
  - apply HE. reflexivity.
  - destruct (w_split (fresh Virtio cap) OUT_HDR) as [[w1 w2]|] eqn:S; [|reflexivity].
    destruct (HS _ _ _ _ S) as [K1 K2].
    destruct (w_write w2 data) as [[w2' p2]| |] eqn:E2; try reflexivity.
    destruct (HV w2 _ _ _ K2 E2) as [-> K2'].
    destruct (w_write w1 _) as [[w1' p1]| |] eqn:E1; try reflexivity.
    destruct (HV w1 _ _ _ K1 E1) as [-> K1']. cbn. unfold w_commit. rewrite K1'. reflexivity.
  - destruct (w_split (fresh Virtio cap) OUT_HDR) as [[w1 w2]|] eqn:S; [|reflexivity].
    destruct (HS _ _ _ _ S) as [K1 K2]. apply HE. exact K1.
  - destruct (w_write (fresh Virtio cap) _) as [[w' p]| |] eqn:E; try reflexivity.
    destruct (HV (fresh Virtio cap) _ _ _ eq_refl E) as [-> _]. reflexivity.
Qed.
