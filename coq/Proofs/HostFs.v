(* Confinement facts about the host calls of Model/HostFs.v.

   E = the "inside" set: inodes listed in E0 (the export subtree at the start) or allocated afterwards
   (number >= n0).  [closedE h]: every directory of E has all its children in E and, unless it is the
   export root, its parent in E.  Every call applied to descriptors of E keeps [closedE], returns
   inodes of E only, and leaves every inode outside E exactly as it was ([frameE]). *)
From Coq Require Import List NArith Bool Lia.
From FB Require Import Model.HostFs.
Import ListNotations.
Local Open Scope N_scope.

Lemma assoc_set_same : forall A (l : list (N * A)) k v, assoc k (assoc_set k v l) = Some v.
Proof.
  induction l as [|[k' v'] r IH]; intros k v; cbn.
  - rewrite N.eqb_refl. reflexivity.
  - destruct (k' =? k) eqn:E; cbn.
    + rewrite N.eqb_refl. reflexivity.
    + rewrite E. apply IH.
Qed.

Lemma assoc_set_other : forall A (l : list (N * A)) k v j, j <> k -> assoc j (assoc_set k v l) = assoc j l.
Proof.
  induction l as [|[k' v'] r IH]; intros k v j Hne; cbn.
  - destruct (k =? j) eqn:E; [apply N.eqb_eq in E; congruence | reflexivity].
  - destruct (k' =? k) eqn:E; cbn.
    + apply N.eqb_eq in E. subst k'. destruct (k =? j) eqn:E2; [apply N.eqb_eq in E2; congruence | reflexivity].
    + destruct (k' =? j); [reflexivity | apply IH; exact Hne].
Qed.

Lemma assoc_del_other : forall A (l : list (N * A)) k j, j <> k -> assoc j (assoc_del k l) = assoc j l.
Proof.
  induction l as [|[k' v'] r IH]; intros k j Hne; cbn; [reflexivity|].
  destruct (k' =? k) eqn:E; cbn.
  - apply N.eqb_eq in E. subst k'. destruct (k =? j) eqn:E2; [apply N.eqb_eq in E2; congruence | reflexivity].
  - destruct (k' =? j); [reflexivity | apply IH; exact Hne].
Qed.

Lemma get_set_same : forall h i v, get (set h i v) i = Some v.
Proof. intros. unfold get, set. cbn. apply assoc_set_same. Qed.
Lemma get_set_other : forall h i v j, j <> i -> get (set h i v) j = get h j.
Proof. intros. unfold get, set. cbn. apply assoc_set_other. assumption. Qed.
Lemma next_set : forall h i v, h_next (set h i v) = h_next h.
Proof. reflexivity. Qed.

Lemma name_eqb_eq : forall a b, name_eqb a b = true <-> a = b.
Proof.
  induction a as [|x a IH]; destruct b as [|y b]; cbn; split; intros H; try reflexivity; try discriminate.
  - apply andb_prop in H. destruct H as [H1 H2]. apply N.eqb_eq in H1. apply IH in H2. subst. reflexivity.
  - inversion H; subst. rewrite N.eqb_refl. cbn. apply IH. reflexivity.
Qed.

Lemma ent_find_In : forall n l i, ent_find n l = Some i -> exists n', In (n', i) l.
Proof.
  induction l as [|[n' i'] r IH]; intros i H; cbn in *; [discriminate|].
  destruct (name_eqb n' n).
  - inversion H; subst. exists n'. left. reflexivity.
  - destruct (IH i H) as [m Hm]. exists m. right. exact Hm.
Qed.
Lemma ent_del_In : forall n l m i, In (m, i) (ent_del n l) -> In (m, i) l.
Proof.
  induction l as [|[n' i'] r IH]; intros m i H; cbn in *; [contradiction|].
  destruct (name_eqb n' n).
  - right. exact H.
  - destruct H as [H | H]; [left; exact H | right; apply IH; exact H].
Qed.
Lemma ent_set_In : forall n j l m i, In (m, i) (ent_set n j l) -> In (m, i) l \/ i = j.
Proof.
  induction l as [|[n' i'] r IH]; intros m i H; cbn in *.
  - destruct H as [H | []]. inversion H. right. reflexivity.
  - destruct (name_eqb n' n).
    + destruct H as [H | H]; [inversion H; right; reflexivity | left; right; exact H].
    + destruct H as [H | H]; [left; left; exact H|].
      destruct (IH m i H) as [H1 | H1]; [left; right; exact H1 | right; exact H1].
Qed.

Section Confinement.
  Variable E0 : list N.
  Variable n0 : N.
  Variable root : N.

  Definition inE (i : N) : Prop := In i E0 \/ n0 <= i.

  Definition closed_inode (i : N) (v : inode) : Prop :=
    match i_kind v with
    | KDir ents par _ => (forall n c, In (n, c) ents -> inE c) /\ (i <> root -> inE par)
    | _ => True
    end.

  Definition closedE (h : host) : Prop :=
    n0 <= h_next h /\ forall i v, inE i -> get h i = Some v -> closed_inode i v.

  Definition frameE (h h' : host) : Prop := forall i, ~ inE i -> get h' i = get h i.

  Lemma frameE_refl : forall h, frameE h h.
  Proof. intros h i _. reflexivity. Qed.
  Lemma frameE_trans : forall a b c, frameE a b -> frameE b c -> frameE a c.
  Proof. intros a b c H1 H2 i Hi. rewrite (H2 i Hi). apply H1. exact Hi. Qed.

  Lemma closedE_set : forall h i v, closedE h -> inE i -> closed_inode i v -> closedE (set h i v).
  Proof.
    intros h i v [Hn Hc] Hi Hv. split; [exact Hn|].
    intros j w Hj Hg. destruct (N.eq_dec j i) as [->|Hne].
    - rewrite get_set_same in Hg. inversion Hg; subst. exact Hv.
    - rewrite get_set_other in Hg by exact Hne. apply (Hc j w Hj Hg).
  Qed.
  Lemma frameE_set : forall h i v, inE i -> frameE h (set h i v).
  Proof.
    intros h i v Hi j Hj. apply get_set_other. intros ->. contradiction.
  Qed.

  Lemma alloc_spec : forall h v, alloc h v = (h_next h, mkHost (assoc_set (h_next h) v (h_nodes h)) (h_next h + 1) (h_utimes h)).
  Proof. reflexivity. Qed.

  Lemma closedE_alloc : forall h v i h', closedE h -> alloc h v = (i, h') -> closed_inode i v ->
    closedE h' /\ inE i /\ frameE h h' /\ get h' i = Some v.
  Proof.
    intros h v i h' [Hn Hc] Ha Hv. rewrite alloc_spec in Ha. inversion Ha; subst i h'. clear Ha.
    assert (Hi : inE (h_next h)) by (right; exact Hn).
    split; [|split; [exact Hi|split]].
    - split; [cbn; lia|]. intros j w Hj Hg. unfold get in Hg. cbn in Hg.
      destruct (N.eq_dec j (h_next h)) as [->|Hne].
      + rewrite assoc_set_same in Hg. inversion Hg; subst. exact Hv.
      + rewrite assoc_set_other in Hg by exact Hne. apply (Hc j w Hj Hg).
    - intros j Hj. unfold get. cbn. apply assoc_set_other. intros ->. contradiction.
    - unfold get. cbn. apply assoc_set_same.
  Qed.

  Lemma closed_get : forall h i v, closedE h -> inE i -> get h i = Some v -> closed_inode i v.
  Proof. intros h i v [_ Hc] Hi Hg. apply (Hc i v Hi Hg). Qed.

  (* closure of the inode transformers *)
  Lemma closed_nondir : forall i v, is_dir_kind (i_kind v) = false -> closed_inode i v.
  Proof. intros i v H. unfold closed_inode. destruct (i_kind v); try exact I. discriminate. Qed.

  Lemma closed_same_kind : forall i v v', closed_inode i v -> i_kind v' = i_kind v -> closed_inode i v'.
  Proof. intros i v v' H Hk. unfold closed_inode in *. rewrite Hk. exact H. Qed.

  Lemma closed_add_entry : forall i dv n c, closed_inode i dv -> inE c -> closed_inode i (add_entry dv n c).
  Proof.
    intros i dv n c H Hc. unfold closed_inode, add_entry in *. destruct (i_kind dv) eqn:Hk; cbn; try rewrite Hk; try exact I.
    destruct H as [H1 H2]. split; [|exact H2].
    intros m x Hin. apply in_app_iff in Hin. destruct Hin as [Hin | [Hin | []]].
    - apply (H1 m x Hin).
    - inversion Hin; subst. exact Hc.
  Qed.

  Lemma closed_set_ents_sub : forall i dv ents', closed_inode i dv ->
    (forall m x, In (m, x) ents' -> In (m, x) (ents_of dv) \/ inE x) -> closed_inode i (set_ents dv ents').
  Proof.
    intros i dv ents' H Hsub. unfold closed_inode, set_ents, ents_of in *. destruct (i_kind dv) eqn:Hk; cbn; try rewrite Hk; try exact I.
    destruct H as [H1 H2]. split; [|exact H2].
    intros m x Hin. destruct (Hsub m x Hin) as [Ho | Hx]; [apply (H1 m x Ho) | exact Hx].
  Qed.

  Lemma closed_set_parent : forall i dv p, closed_inode i dv -> inE p -> closed_inode i (set_parent dv p).
  Proof.
    intros i dv p H Hp. unfold closed_inode, set_parent in *. destruct (i_kind dv) eqn:Hk; cbn; try rewrite Hk; try exact I.
    destruct H as [H1 _]. split; [exact H1 | intros _; exact Hp].
  Qed.

  Lemma closed_kill_dir : forall i dv, closed_inode i dv -> closed_inode i (kill_dir dv).
  Proof.
    intros i dv H. unfold closed_inode, kill_dir in *. destruct (i_kind dv) eqn:Hk; cbn; try rewrite Hk; try exact I. exact H.
  Qed.

  Lemma closed_children : forall i dv n c, closed_inode i dv -> In (n, c) (ents_of dv) -> inE c.
  Proof.
    intros i dv n c H Hin. unfold closed_inode, ents_of in *. destruct (i_kind dv); try contradiction.
    destruct H as [H1 _]. apply (H1 n c Hin).
  Qed.

  (* ---- lookup *)
  Lemma lookup1_inE : forall c h d n i, closedE h -> inE d -> (d <> root \/ is_dotdot n = false) ->
    lookup1 c h d n = Ok i -> inE i.
  Proof.
    intros c h d n i Hc Hd Hr H. unfold lookup1 in H.
    destruct (len n =? 0); [discriminate|]. destruct (has_slash n); [discriminate|].
    destruct (get h d) as [dv|] eqn:Hg; [|discriminate].
    pose proof (closed_get h d dv Hc Hd Hg) as Hcl. unfold closed_inode in Hcl.
    destruct (i_kind dv) as [|ents par dead| |] eqn:Hk; try discriminate.
    destruct Hcl as [Hch Hpar].
    destruct (negb (may c dv MAY_X)); [discriminate|].
    destruct (is_dot n); [inversion H; subst; exact Hd|].
    destruct (is_dotdot n) eqn:Hdd.
    - inversion H; subst. apply Hpar. destruct Hr as [Hr | Hr]; [exact Hr | discriminate].
    - destruct dead; [discriminate|]. destruct (NAME_MAX <? len n); [discriminate|].
      destruct (ent_find n ents) as [x|] eqn:Hf; [|discriminate]. inversion H; subst.
      destruct (ent_find_In n ents i Hf) as [m Hm]. apply (Hch m i Hm).
  Qed.

  Lemma create_check_ok : forall c h d n dv, create_check c h d n = Ok dv -> get h d = Some dv /\ is_dir_kind (i_kind dv) = true.
  Proof.
    intros c h d n dv H. unfold create_check in H.
    destruct (len n =? 0); [discriminate|]. destruct (has_slash n); [discriminate|].
    destruct (get h d) as [dv'|] eqn:Hg; [|discriminate].
    destruct (i_kind dv') eqn:Hk; try discriminate.
    destruct (negb (may c dv' MAY_X)); [discriminate|].
    destruct (is_dot n || is_dotdot n); [discriminate|].
    destruct dead; [discriminate|]. destruct (NAME_MAX <? len n); [discriminate|].
    destruct (ent_find n ents); [discriminate|].
    destruct (may c dv' MAY_W); [|discriminate]. inversion H; subst. split; [reflexivity|]. rewrite Hk. reflexivity.
  Qed.

  Definition conf (h h' : host) : Prop := closedE h' /\ frameE h h'.

  Lemma conf_refl : forall h, closedE h -> conf h h.
  Proof. intros h H. split; [exact H | apply frameE_refl]. Qed.

  (* a new node linked into directory d *)
  Lemma create_node_conf : forall c h d dv n k mode i h',
    closedE h -> inE d -> get h d = Some dv ->
    (forall j, closed_inode j (mkInode k mode (euid c) (new_gid c dv) [])) ->
    create_node c h d dv n k mode = (i, h') -> conf h h' /\ inE i.
  Proof.
    intros c h d dv n k mode i h' Hc Hd Hg Hk H. unfold create_node in H.
    destruct (alloc h (mkInode k mode (euid c) (new_gid c dv) [])) as [j h1] eqn:Ha.
    inversion H; subst i h'. clear H.
    destruct (closedE_alloc _ _ _ _ Hc Ha (Hk j)) as [Hc1 [Hj [Hf1 _]]].
    split; [|exact Hj]. split.
    - apply closedE_set; [exact Hc1 | exact Hd|]. apply closed_add_entry; [|exact Hj]. apply (closed_get h d dv Hc Hd Hg).
    - eapply frameE_trans; [exact Hf1 | apply frameE_set; exact Hd].
  Qed.

  Lemma closed_file_kind : forall j k m u g x, is_dir_kind k = false -> closed_inode j (mkInode k m u g x).
  Proof. intros. apply closed_nondir. cbn. assumption. Qed.

  Lemma sys_mkdirat_conf : forall c h d n mode r h', closedE h -> inE d ->
    sys_mkdirat c h d n mode = (r, h') -> conf h h' /\ (forall i, r = Ok i -> inE i).
  Proof.
    intros c h d n mode r h' Hc Hd H. unfold sys_mkdirat in H.
    destruct (create_check c h d n) as [dv|e] eqn:Hck.
    - destruct (create_check_ok _ _ _ _ _ Hck) as [Hg _].
      destruct (create_node c h d dv n (KDir [] d false) _) as [i h1] eqn:Hcn. inversion H; subst r h'.
      assert (Hk : forall j m, closed_inode j (mkInode (KDir [] d false) m (euid c) (new_gid c dv) [])).
      { intros j m. unfold closed_inode. cbn. split; [intros ? ? []| intros _; exact Hd]. }
      destruct (create_node_conf _ _ _ _ _ _ _ _ _ Hc Hd Hg (fun j => Hk j _) Hcn) as [Hcf Hi].
      split; [exact Hcf|]. intros i0 Hi0. inversion Hi0; subst. exact Hi.
    - inversion H; subst. split; [apply conf_refl; exact Hc | intros i Hi; discriminate].
  Qed.

  Lemma sys_symlinkat_conf : forall c h t d n r h', closedE h -> inE d ->
    sys_symlinkat c h t d n = (r, h') -> conf h h' /\ (forall i, r = Ok i -> inE i).
  Proof.
    intros c h t d n r h' Hc Hd H. unfold sys_symlinkat in H.
    destruct (len t =? 0). { inversion H; subst. split; [apply conf_refl; exact Hc | intros i Hi; discriminate]. }
    destruct (create_check c h d n) as [dv|e] eqn:Hck.
    - destruct (create_check_ok _ _ _ _ _ Hck) as [Hg _].
      destruct (create_node c h d dv n (KLnk t) 511) as [i h1] eqn:Hcn. inversion H; subst r h'.
      destruct (create_node_conf _ _ _ _ _ _ _ _ _ Hc Hd Hg (fun j => closed_file_kind j (KLnk t) _ _ _ _ eq_refl) Hcn) as [Hcf Hi].
      split; [exact Hcf|]. intros i0 Hi0. inversion Hi0; subst. exact Hi.
    - inversion H; subst. split; [apply conf_refl; exact Hc | intros i Hi; discriminate].
  Qed.

  Lemma sys_mknodat_conf : forall c h d n mode rdev r h', closedE h -> inE d ->
    sys_mknodat c h d n mode rdev = (r, h') -> conf h h' /\ (forall i, r = Ok i -> inE i).
  Proof.
    intros c h d n mode rdev r h' Hc Hd H. unfold sys_mknodat in H.
    assert (Hno : forall e, (Err e, h) = (r, h') -> conf h h' /\ (forall i, r = Ok i -> inE i)).
    { intros e He. inversion He; subst. split; [apply conf_refl; exact Hc | intros i Hi; discriminate]. }
    destruct (N.land mode S_IFMT =? S_IFDIR); [apply (Hno _ H)|].
    destruct (negb _); [apply (Hno _ H)|].
    destruct (create_check c h d n) as [dv|e] eqn:Hck; [|apply (Hno _ H)].
    destruct (create_check_ok _ _ _ _ _ Hck) as [Hg _].
    destruct (_ && negb (euid c =? 0)); [apply (Hno _ H)|].
    match type of H with (let (_, _) := create_node c h d dv n ?k ?m in _) = _ =>
      destruct (create_node c h d dv n k m) as [i h1] eqn:Hcn;
      assert (Hkk : is_dir_kind k = false) by (destruct ((N.land mode S_IFMT =? 0) || (N.land mode S_IFMT =? S_IFREG)); reflexivity) end.
    inversion H; subst r h'.
    destruct (create_node_conf _ _ _ _ _ _ _ _ _ Hc Hd Hg (fun j => closed_file_kind j _ _ _ _ _ Hkk) Hcn) as [Hcf Hi].
    split; [exact Hcf|]. intros i0 Hi0. inversion Hi0; subst. exact Hi.
  Qed.

  Lemma sys_openat_creat_excl_conf : forall c h d n flags mode r h', closedE h -> inE d ->
    sys_openat_creat_excl c h d n flags mode = (r, h') -> conf h h' /\ (forall i, r = Ok i -> inE i).
  Proof.
    intros c h d n flags mode r h' Hc Hd H. unfold sys_openat_creat_excl in H.
    assert (Hno : forall e, (Err e, h) = (r, h') -> conf h h' /\ (forall i, r = Ok i -> inE i)).
    { intros e He. inversion He; subst. split; [apply conf_refl; exact Hc | intros i Hi; discriminate]. }
    destruct (negb (has flags O_EXCL)); [apply (Hno _ H)|].
    destruct (has flags O_DIRECTORY); [apply (Hno _ H)|].
    destruct (create_check c h d n) as [dv|e] eqn:Hck; [|apply (Hno _ H)].
    destruct (create_check_ok _ _ _ _ _ Hck) as [Hg _].
    destruct (create_node c h d dv n (KReg []) (init_mode c dv mode)) as [i h1] eqn:Hcn. inversion H; subst r h'.
    destruct (create_node_conf _ _ _ _ _ _ _ _ _ Hc Hd Hg (fun j => closed_file_kind j (KReg []) _ _ _ _ eq_refl) Hcn) as [Hcf Hi].
    split; [exact Hcf|]. intros i0 Hi0. inversion Hi0; subst. exact Hi.
  Qed.

  (* updates of one inode of E that keep its kind (or make it a non-directory) *)
  Lemma set_same_kind_conf : forall h i v v', closedE h -> inE i -> get h i = Some v ->
    (i_kind v' = i_kind v \/ is_dir_kind (i_kind v') = false) -> conf h (set h i v').
  Proof.
    intros h i v v' Hc Hi Hg Hk. split; [|apply frameE_set; exact Hi].
    apply closedE_set; [exact Hc | exact Hi|]. destruct Hk as [Hk | Hk].
    - apply (closed_same_kind i v v' (closed_get h i v Hc Hi Hg) Hk).
    - apply closed_nondir. exact Hk.
  Qed.

  Lemma drop_priv_kind : forall c v, i_kind (drop_priv_on_write c v) = i_kind v.
  Proof.
    intros c v. unfold drop_priv_on_write. destruct (i_kind v) eqn:Hk; try exact Hk.
    destruct (fsetid c); [exact Hk|]. destruct (_ || _); [reflexivity | exact Hk].
  Qed.

  Lemma sys_reopen_conf : forall c h i flags r h', closedE h -> inE i ->
    sys_reopen c h i flags = (r, h') -> conf h h'.
  Proof.
    intros c h i flags r h' Hc Hi H. unfold sys_reopen in H.
    destruct (get h i) as [v|] eqn:Hg; [|inversion H; subst; apply conf_refl; exact Hc].
    destruct (i_kind v) eqn:Hk.
    - repeat match type of H with (if ?b then _ else _) = _ => destruct b end;
        inversion H; subst; try (apply conf_refl; exact Hc).
      eapply set_same_kind_conf; [exact Hc | exact Hi | exact Hg|]. right. rewrite drop_priv_kind. reflexivity.
    - repeat match type of H with (if ?b then _ else _) = _ => destruct b end;
        inversion H; subst; apply conf_refl; exact Hc.
    - inversion H; subst; apply conf_refl; exact Hc.
    - inversion H; subst; apply conf_refl; exact Hc.
  Qed.

  Lemma sys_linkat_conf : forall c h src d n r h', closedE h -> inE src -> inE d ->
    sys_linkat c h src d n = (r, h') -> conf h h'.
  Proof.
    intros c h src d n r h' Hc Hs Hd H. unfold sys_linkat in H.
    destruct (get h src) as [sv|]; [|inversion H; subst; apply conf_refl; exact Hc].
    destruct (create_check c h d n) as [dv|e] eqn:Hck; [|inversion H; subst; apply conf_refl; exact Hc].
    destruct (create_check_ok _ _ _ _ _ Hck) as [Hg _].
    destruct (is_dir_kind (i_kind sv)); [inversion H; subst; apply conf_refl; exact Hc|].
    destruct (links_to h src =? 0); inversion H; subst; [apply conf_refl; exact Hc|].
    split; [|apply frameE_set; exact Hd].
    apply closedE_set; [exact Hc | exact Hd|]. apply closed_add_entry; [|exact Hs]. apply (closed_get h d dv Hc Hd Hg).
  Qed.

  Lemma remove_check_ok : forall c h d n dots dv i, remove_check c h d n dots = Ok (dv, i) ->
    get h d = Some dv /\ exists m, In (m, i) (ents_of dv).
  Proof.
    intros c h d n dots dv i H. unfold remove_check in H.
    destruct (len n =? 0); [discriminate|]. destruct (has_slash n); [discriminate|].
    destruct (get h d) as [dv'|] eqn:Hg; [|discriminate].
    destruct (i_kind dv') eqn:Hk; try discriminate.
    destruct (negb (may c dv' MAY_X)); [discriminate|].
    destruct (is_dot n || is_dotdot n); [discriminate|].
    destruct dead; [discriminate|]. destruct (NAME_MAX <? len n); [discriminate|].
    destruct (ent_find n ents) as [x|] eqn:Hf; [|discriminate].
    destruct (may c dv' MAY_W); [|discriminate]. inversion H; subst. split; [reflexivity|].
    unfold ents_of. rewrite Hk. apply (ent_find_In n ents i Hf).
  Qed.

  Lemma closed_del_entry : forall i dv n, closed_inode i dv -> closed_inode i (set_ents dv (ent_del n (ents_of dv))).
  Proof.
    intros i dv n H. apply closed_set_ents_sub; [exact H|]. intros m x Hin. left. apply (ent_del_In n _ m x Hin).
  Qed.

  Lemma sys_unlinkat_conf : forall c h d n flags r h', closedE h -> inE d ->
    sys_unlinkat c h d n flags = (r, h') -> conf h h'.
  Proof.
    intros c h d n flags r h' Hc Hd H. unfold sys_unlinkat in H.
    destruct (has flags AT_REMOVEDIR).
    - destruct (remove_check c h d n _) as [[dv i]|e] eqn:Hrc; [|inversion H; subst; apply conf_refl; exact Hc].
      destruct (remove_check_ok _ _ _ _ _ _ _ Hrc) as [Hg [m Hm]].
      pose proof (closed_get h d dv Hc Hd Hg) as Hcd.
      assert (Hi : inE i) by (apply (closed_children d dv m i Hcd Hm)).
      destruct (get h i) as [v|] eqn:Hgi; [|inversion H; subst; apply conf_refl; exact Hc].
      destruct (negb (is_dir_kind (i_kind v))); [inversion H; subst; apply conf_refl; exact Hc|].
      destruct (negb (dir_empty v)); inversion H; subst; [apply conf_refl; exact Hc|].
      assert (Hc1 : closedE (set h d (set_ents dv (ent_del n (ents_of dv))))).
      { apply closedE_set; [exact Hc | exact Hd | apply closed_del_entry; exact Hcd]. }
      split.
      + apply closedE_set; [exact Hc1 | exact Hi|]. apply closed_kill_dir. apply (closed_get h i v Hc Hi Hgi).
      + eapply frameE_trans; [apply frameE_set; exact Hd | apply frameE_set; exact Hi].
    - destruct (remove_check c h d n _) as [[dv i]|e] eqn:Hrc; [|inversion H; subst; apply conf_refl; exact Hc].
      destruct (remove_check_ok _ _ _ _ _ _ _ Hrc) as [Hg [m Hm]].
      pose proof (closed_get h d dv Hc Hd Hg) as Hcd.
      destruct (get h i) as [v|]; [|inversion H; subst; apply conf_refl; exact Hc].
      destruct (is_dir_kind (i_kind v)); inversion H; subst; [apply conf_refl; exact Hc|].
      split; [|apply frameE_set; exact Hd].
      apply closedE_set; [exact Hc | exact Hd | apply closed_del_entry; exact Hcd].
  Qed.

  (* one step of the rename rewrites: update inode i of E with a value that is closed *)
  Lemma conf_step : forall h0 h i v, conf h0 h -> inE i -> closed_inode i v -> conf h0 (set h i v).
  Proof.
    intros h0 h i v [Hc Hf] Hi Hv. split; [apply closedE_set; assumption|].
    eapply frameE_trans; [exact Hf | apply frameE_set; exact Hi].
  Qed.

  Lemma conf_opt_step : forall h0 h i (f : inode -> inode), conf h0 h -> inE i ->
    (forall x, get h i = Some x -> closed_inode i x -> closed_inode i (f x)) ->
    conf h0 (match get h i with Some x => set h i (f x) | None => h end).
  Proof.
    intros h0 h i f Hcf Hi Hfx. destruct (get h i) as [x|] eqn:Hg; [|exact Hcf].
    apply conf_step; [exact Hcf | exact Hi|]. apply Hfx; [reflexivity|]. destruct Hcf as [Hc _]. apply (closed_get h i x Hc Hi Hg).
  Qed.

  Lemma conf_upd : forall h0 h i (f : inode -> inode), conf h0 h -> inE i ->
    (forall x, closed_inode i x -> closed_inode i (f x)) -> conf h0 (upd h i f).
  Proof.
    intros h0 h i f Hcf Hi Hfx. unfold upd. destruct (get h i) as [x|] eqn:Hg; [|exact Hcf].
    apply conf_step; [exact Hcf | exact Hi|]. apply Hfx. destruct Hcf as [Hc _]. apply (closed_get h i x Hc Hi Hg).
  Qed.

  Lemma closed_ent_set : forall i x n j, inE j -> closed_inode i x -> closed_inode i (set_ents x (ent_set n j (ents_of x))).
  Proof.
    intros i x n j Hj H. apply closed_set_ents_sub; [exact H|]. intros m y Hin.
    destruct (ent_set_In n j _ m y Hin) as [Ho | ->]; [left; exact Ho | right; exact Hj].
  Qed.
  Lemma closed_ent_app : forall i x n j, inE j -> closed_inode i x -> closed_inode i (set_ents x (ents_of x ++ [(n, j)])).
  Proof.
    intros i x n j Hj H. apply closed_set_ents_sub; [exact H|]. intros m y Hin.
    apply in_app_iff in Hin. destruct Hin as [Ho | [Ho | []]]; [left; exact Ho | inversion Ho; subst; right; exact Hj].
  Qed.

  Lemma sys_renameat2_conf : forall c h od on nd nn flags r h', closedE h -> inE od -> inE nd ->
    sys_renameat2 c h od on nd nn flags = (r, h') -> conf h h'.
  Proof.
    intros c h od on nd nn flags r h' Hc Hod Hnd H. unfold sys_renameat2 in H.
    assert (Hno : forall (x : res unit), (x, h) = (r, h') -> conf h h').
    { intros x He. inversion He; subst. apply conf_refl; exact Hc. }
    destruct (7 <? flags); [apply (Hno _ H)|].
    destruct (_ && (_ || _)); [apply (Hno _ H)|].
    destruct (has flags RENAME_WHITEOUT); [apply (Hno _ H)|].
    destruct ((len on =? 0) || (len nn =? 0)); [apply (Hno _ H)|].
    destruct (has_slash on || has_slash nn); [apply (Hno _ H)|].
    destruct (get h od) as [odv|] eqn:Hgo; [|apply (Hno _ H)].
    destruct (get h nd) as [ndv|] eqn:Hgn; [|apply (Hno _ H)].
    pose proof (closed_get h od odv Hc Hod Hgo) as Hcod.
    pose proof (closed_get h nd ndv Hc Hnd Hgn) as Hcnd.
    destruct (i_kind odv) as [|oents opar odead| |] eqn:Hko; try apply (Hno _ H).
    destruct (i_kind ndv) as [|nents npar ndead| |] eqn:Hkn; try apply (Hno _ H).
    destruct (negb (may c odv MAY_X) || negb (may c ndv MAY_X)); [apply (Hno _ H)|].
    destruct (is_dot on || is_dotdot on); [apply (Hno _ H)|].
    destruct (is_dot nn || is_dotdot nn); [apply (Hno _ H)|].
    destruct odead; [apply (Hno _ H)|].
    destruct (NAME_MAX <? len on); [apply (Hno _ H)|].
    cbv iota in H.
    destruct (ent_find on oents) as [src|] eqn:Hsrcf; [|apply (Hno _ H)].
    assert (Hsrc : inE src).
    { destruct (ent_find_In on oents src Hsrcf) as [m Hm].
      apply (closed_children od odv m src Hcod). unfold ents_of. rewrite Hko. exact Hm. }
    destruct ndead; [apply (Hno _ H)|].
    destruct (NAME_MAX <? len nn); [apply (Hno _ H)|].
    destruct (get h src) as [sv|] eqn:Hgs; [|apply (Hno _ H)].
    cbv zeta in H.
    cbv iota in H.
    destruct (ent_find nn nents) as [t|] eqn:Htgt.
    - assert (Ht : inE t).
      { destruct (ent_find_In nn nents t Htgt) as [m' Hm'].
        apply (closed_children nd ndv m' t Hcnd). unfold ents_of. rewrite Hkn. exact Hm'. }
      destruct (has flags RENAME_NOREPLACE); [apply (Hno _ H)|].
      destruct (_ && ancestor_or_self _ h src nd); [apply (Hno _ H)|].
      destruct (is_dir h t && _); [apply (Hno _ H)|].
      destruct (src =? t); [apply (Hno _ H)|].
      destruct (negb (may c odv MAY_W) || negb (may c ndv MAY_W)); [apply (Hno _ H)|].
      destruct (has flags RENAME_EXCHANGE).
      + inversion H; subst r h'.
        apply conf_upd; [|exact Ht | intros x Hx; apply closed_set_parent; assumption].
        apply conf_upd; [|exact Hsrc | intros x Hx; apply closed_set_parent; assumption].
        apply conf_upd; [|exact Hnd | intros x Hx; apply closed_ent_set; assumption].
        apply conf_upd; [apply conf_refl; exact Hc | exact Hod | intros x Hx; apply closed_ent_set; assumption].
      + destruct (get h t) as [tv|]; [|apply (Hno _ H)].
        destruct (_ && negb (is_dir_kind (i_kind tv))); [apply (Hno _ H)|].
        destruct (negb _ && is_dir_kind (i_kind tv)); [apply (Hno _ H)|].
        destruct (_ && negb (dir_empty tv)); [apply (Hno _ H)|].
        inversion H; subst r h'.
        assert (H3 : conf h (upd (upd (upd h od (fun x => set_ents x (ent_del on (ents_of x)))) nd
                                       (fun x => set_ents x (ent_set nn src (ents_of x)))) src (fun x => set_parent x nd))).
        { apply conf_upd; [|exact Hsrc | intros x Hx; apply closed_set_parent; assumption].
          apply conf_upd; [|exact Hnd | intros x Hx; apply closed_ent_set; assumption].
          apply conf_upd; [apply conf_refl; exact Hc | exact Hod | intros x Hx; apply closed_del_entry; assumption]. }
        destruct (is_dir_kind (i_kind tv)); [|exact H3].
        apply conf_upd; [exact H3 | exact Ht | intros x Hx; apply closed_kill_dir; exact Hx].
    - destruct (has flags RENAME_EXCHANGE); [apply (Hno _ H)|].
      destruct (_ && ancestor_or_self _ h src nd); [apply (Hno _ H)|].
      cbv iota in H.
      destruct (negb (may c odv MAY_W) || negb (may c ndv MAY_W)); [apply (Hno _ H)|].
      inversion H; subst r h'.
      apply conf_upd; [|exact Hsrc | intros x Hx; apply closed_set_parent; assumption].
      apply conf_upd; [|exact Hnd | intros x Hx; apply closed_ent_app; assumption].
      apply conf_upd; [apply conf_refl; exact Hc | exact Hod | intros x Hx; apply closed_del_entry; assumption].
  Qed.

  (* calls that rewrite one inode of E without changing its kind *)
  Ltac close_one Hc Hi Hg Hk :=
    match goal with
    | |- conf ?h ?h => apply conf_refl; exact Hc
    | |- conf _ (set _ _ _) =>
        eapply set_same_kind_conf; [exact Hc | exact Hi | exact Hg | left; cbn; try rewrite Hk; reflexivity]
    end.
  Ltac split_ifs H :=
    repeat match type of H with
    | (if ?b then _ else _) = _ => destruct b
    | (match ?x with _ => _ end) = _ => destruct x eqn:?
    end.

  Lemma sys_chmod_conf : forall c h i mode r h', closedE h -> inE i -> sys_chmod c h i mode = (r, h') -> conf h h'.
  Proof.
    intros c h i mode r h' Hc Hi H. unfold sys_chmod in H.
    destruct (get h i) as [v|] eqn:Hg; [|inversion H; subst; apply conf_refl; exact Hc].
    destruct (i_kind v) eqn:Hk; split_ifs H; inversion H; subst; close_one Hc Hi Hg Hk.
  Qed.

  Lemma sys_chown_conf : forall c h i u g r h', closedE h -> inE i -> sys_chown c h i u g = (r, h') -> conf h h'.
  Proof.
    intros c h i u g r h' Hc Hi H. unfold sys_chown in H.
    destruct (get h i) as [v|] eqn:Hg; [|inversion H; subst; apply conf_refl; exact Hc].
    destruct (negb (euid c =? 0)); inversion H; subst; [apply conf_refl; exact Hc|].
    eapply set_same_kind_conf; [exact Hc | exact Hi | exact Hg | left; reflexivity].
  Qed.

  Lemma sys_ftruncate_conf : forall c h i sz r h', closedE h -> inE i -> sys_ftruncate c h i sz = (r, h') -> conf h h'.
  Proof.
    intros c h i sz r h' Hc Hi H. unfold sys_ftruncate in H.
    destruct (get h i) as [v|] eqn:Hg; [|inversion H; subst; apply conf_refl; exact Hc].
    destruct (i_kind v) eqn:Hk; inversion H; subst; try (apply conf_refl; exact Hc).
    eapply set_same_kind_conf; [exact Hc | exact Hi | exact Hg | right; rewrite drop_priv_kind; reflexivity].
  Qed.

  Lemma sys_pwrite_conf : forall c h i ap off w r h', closedE h -> inE i -> sys_pwrite c h i ap off w = (r, h') -> conf h h'.
  Proof.
    intros c h i ap off w r h' Hc Hi H. unfold sys_pwrite in H.
    destruct (get h i) as [v|] eqn:Hg; [|inversion H; subst; apply conf_refl; exact Hc].
    destruct (i_kind v) eqn:Hk; try (inversion H; subst; apply conf_refl; exact Hc).
    destruct (len w =? 0); inversion H; subst; [apply conf_refl; exact Hc|].
    eapply set_same_kind_conf; [exact Hc | exact Hi | exact Hg | right; rewrite drop_priv_kind; reflexivity].
  Qed.

  Lemma sys_fallocate_conf : forall c h i mode off l r h', closedE h -> inE i -> sys_fallocate c h i mode off l = (r, h') -> conf h h'.
  Proof.
    intros c h i mode off l r h' Hc Hi H. unfold sys_fallocate in H.
    destruct (get h i) as [v|] eqn:Hg; [|inversion H; subst; apply conf_refl; exact Hc].
    destruct (i_kind v) eqn:Hk; try (inversion H; subst; apply conf_refl; exact Hc).
    repeat match type of H with (if ?b then _ else _) = _ => destruct b end;
      inversion H; subst; try (apply conf_refl; exact Hc);
      (eapply set_same_kind_conf; [exact Hc | exact Hi | exact Hg | right; reflexivity]).
  Qed.

  Lemma sys_setxattr_conf : forall c h i n v fl r h', closedE h -> inE i -> sys_setxattr c h i n v fl = (r, h') -> conf h h'.
  Proof.
    intros c h i n v fl r h' Hc Hi H. unfold sys_setxattr in H.
    destruct (get h i) as [iv|] eqn:Hg; [|inversion H; subst; apply conf_refl; exact Hc].
    split_ifs H; inversion H; subst; close_one Hc Hi Hg Hg.
  Qed.

  Lemma sys_removexattr_conf : forall c h i n r h', closedE h -> inE i -> sys_removexattr c h i n = (r, h') -> conf h h'.
  Proof.
    intros c h i n r h' Hc Hi H. unfold sys_removexattr in H.
    destruct (get h i) as [iv|] eqn:Hg; [|inversion H; subst; apply conf_refl; exact Hc].
    split_ifs H; inversion H; subst; close_one Hc Hi Hg Hg.
  Qed.

  Lemma sys_utimens_conf : forall h i a m r h', closedE h -> sys_utimens h i a m = (r, h') -> conf h h'.
  Proof.
    intros h i a m r h' Hc H. unfold sys_utimens in H. destruct (get h i); inversion H; subst; [|apply conf_refl; exact Hc].
    split; [|intros j _; reflexivity]. destruct Hc as [Hn Hcl]. split; [exact Hn|]. intros j w Hj Hg. apply (Hcl j w Hj Hg).
  Qed.

  Lemma conf_trans : forall a b c, conf a b -> conf b c -> conf a c.
  Proof. intros a b c [_ F1] [C2 F2]. split; [exact C2 | eapply frameE_trans; eassumption]. Qed.
End Confinement.
