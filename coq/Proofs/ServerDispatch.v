(* C02: the translated dispatch table of handle_message against the specification and the model. *)
From Coq Require Import List String NArith Bool Lia.
From FB Require Import Lib.Bytes Lib.Layout Gen.RustDispatch Gen.RustABI Model.Server Spec.KernelABI Spec.Requests.
Import ListNotations.
Local Open Scope string_scope.
Local Open Scope list_scope.
Local Open Scope N_scope.

Definition dummy_req (op : N) : wfreq :=
  {| q_op := op; q_unique := 0; q_nodeid := 0; q_uid := 0; q_gid := 0; q_pid := 0; q_fields := [];
     q_name1 := []; q_name2 := []; q_payload := []; q_pairs := []; q_flags2 := None |}.

(* the filesystem operation an opcode denotes, by the specification *)
Definition spec_method (op : N) : option string :=
  if op =? 26 then Some "init"
  else match expected_call (dummy_req op) (0, 0, 0) with Some c => Some (c_method c) | None => None end.

Definition family (m : string) : list string :=
  if String.eqb m "readdir" || String.eqb m "readdirplus" then ["readdir"; "readdirplus"] else [m].

Definition mem_s (s : string) (l : list string) := existsb (String.eqb s) l.

Definition dispatch_entry_ok (e : N * string * list string) : bool :=
  let '(op, h, ms) := e in
  match spec_method op with
  | Some m => mem_s m ms && forallb (fun x => mem_s x (family m)) ms
  | None => match ms with [] => true | _ => false end
  end.

(* every opcode the kernel can send below the crate's sentinel and that the protocol defines
   for a filesystem daemon is dispatched (COPY_FILE_RANGE = 47 is the one the crate leaves out: ENOSYS) *)
Definition dispatched : list N := map (fun e => fst (fst e)) rust_dispatch.
Definition spec_opcodes : list N :=
  filter (fun op => negb (op =? 47)) supported_opcodes.

Fixpoint insert (x : N) (l : list N) : list N :=
  match l with [] => [x] | y :: r => if x <=? y then x :: l else y :: insert x r end.
Definition sort (l : list N) : list N := fold_right insert [] l.
Fixpoint listN_eqb (a b : list N) : bool :=
  match a, b with [], [] => true | x :: a', y :: b' => (x =? y) && listN_eqb a' b' | _, _ => false end.

Lemma dispatch_all_ok : forallb dispatch_entry_ok rust_dispatch = true.
Proof. vm_compute. reflexivity. Qed.

Lemma dispatch_complete : listN_eqb (sort dispatched) (sort spec_opcodes) = true.
Proof. vm_compute. reflexivity. Qed.

Lemma dispatch_default_enosys : rust_dispatch_default_errno = ENOSYS.
Proof. reflexivity. Qed.

(* the model dispatches exactly the translated opcodes (INIT is handled by do_init in the model) *)
Lemma model_table_matches : listN_eqb (sort (26 :: map fst handlers)) (sort dispatched) = true.
Proof. vm_compute. reflexivity. Qed.

Definition const_is (name : string) (v : N) : bool :=
  match lookup name rust_server_consts with Some x => x =? v | None => false end.
Lemma model_consts_match :
  const_is "MAX_BUFFER_SIZE" MAX_BUFFER_SIZE && const_is "BUFFER_HEADER_SIZE" BUFFER_HEADER_SIZE &&
  const_is "MIN_READ_BUFFER" MIN_READ_BUFFER && const_is "MAX_REQ_PAGES" MAX_REQ_PAGES &&
  (match lookup "KERNEL_VERSION" rust_consts with Some x => x =? KERNEL_VERSION | None => false end) &&
  (match lookup "KERNEL_MINOR_VERSION" rust_consts with Some x => x =? KERNEL_MINOR_VERSION | None => false end) = true.
Proof. vm_compute. reflexivity. Qed.

Fixpoint lookupNN (k : N) (l : list (N * N)) : option N :=
  match l with [] => None | (a, b) :: r => if k =? a then Some b else lookupNN k r end.

(* the model's errno table for error kinds is the translated match of encode_io_error_kind, for every kind code *)
Lemma model_error_kinds : forall k,
  encode_io_error_kind k = match lookupNN k rust_error_kinds with Some v => v | None => rust_error_kind_default end.
Proof.
  intro k. destruct k as [|p]; [reflexivity|].
  do 3 (destruct p as [p|p|]; try reflexivity).
Qed.

Lemma arc_forwarding_identity :
  forallb (fun e => String.eqb (fst (fst e)) (snd (fst e)) && snd e) rust_arc_forward = true.
Proof. vm_compute. reflexivity. Qed.
