(* Proofs/RustPureInodes.v -- the bit packing of UniqueInodeGenerator::get_unique_inode
   (src/passthrough/util.rs; MAX_HOST_INO from src/passthrough/mod.rs) is Model/Inodes.v's [enc_ino] over the same
   case split (C08).  unique_id is the u8 taken from / added to dev_mntid_map; next_virtual the value of
   next_virtual_inode read by the load and returned by the fetch_add (single-threaded reading). *)
From Coq Require Import List NArith ZArith String Bool Lia.
From FB Require Import Lib.RustExpr Gen.RustPure Proofs.RustPure.
From FB Require Model.Inodes.
Import ListNotations.
Local Open Scope N_scope.

Definition err_other : RustExpr.outcome := Val (VErr (VEnum "io::Error::other")).
Definition unique_inode_spec (u ino nv : N) : RustExpr.outcome :=
  if ino <=? Inodes.MAX_HOST_INO then Val (VOk (VInt U64 (Inodes.enc_ino u ino)))
  else if Inodes.MAX_HOST_INO <? nv then err_other
  else Val (VOk (VInt U64 (Inodes.enc_ino u (N.lor nv Inodes.VIRTUAL_INODE_FLAG)))).

Lemma src_unique_inode : forall u ino nv, u < 256 -> ino < 18446744073709551616 -> nv < 18446744073709551616 ->
  eval_fn Debug unique_inode_src [VInt U64 ino; VInt U64 nv; VInt U8 u] = unique_inode_spec u ino nv.
Proof.
  intros u ino nv Hu Hi Hn.
  rsolve_with bitnorm.
Qed.

(* what the model's get_unique_inode returns is that value (second half of its definition) *)
Lemma unique_inode_spec_model : forall s id u,
  Inodes.mget Inodes.pair_eqb (Inodes.uids s) (Inodes.hid_dev id, Inodes.hid_mnt id) = Some u ->
  match fst (Inodes.get_unique_inode s id) with
  | Some x => unique_inode_spec u (Inodes.hid_ino id) (Inodes.next_virt s) = Val (VOk (VInt U64 x))
  | None => unique_inode_spec u (Inodes.hid_ino id) (Inodes.next_virt s) = err_other
  end.
Proof.
  intros s id u H. unfold Inodes.get_unique_inode, unique_inode_spec. rewrite H.
  destruct (Inodes.hid_ino id <=? Inodes.MAX_HOST_INO); cbn [fst]; [reflexivity |].
  destruct (Inodes.MAX_HOST_INO <? Inodes.next_virt s); cbn [fst]; reflexivity.
Qed.
